package main

// Hub histories: generation, execution on the real keepers, observation.
// One case = (params tokens ops); implementation output = per op (code state-projection).

import (
	"math"
	"os"
	"crypto/sha256"
	"encoding/binary"
	"fmt"
	"math/big"
	"sort"
	"strings"
	"time"

	"github.com/cosmos/cosmos-sdk/store/prefix"
	sdk "github.com/cosmos/cosmos-sdk/types"
	authtypes "github.com/cosmos/cosmos-sdk/x/auth/types"
	banktypes "github.com/cosmos/cosmos-sdk/x/bank/types"

	mhub2 "github.com/MinterTeam/mhub2/module/x/mhub2"
	"github.com/MinterTeam/mhub2/module/x/mhub2/keeper"
	"github.com/MinterTeam/mhub2/module/x/mhub2/types"
)

var allChains = []string{"ethereum", "minter", "bsc", "hub"}

func userAddr(i int) sdk.AccAddress {
	b := make([]byte, 20)
	for j := range b {
		b[j] = byte(0xA0 + i)
	}
	return sdk.AccAddress(b)
}
func valAddr(i int) sdk.ValAddress {
	b := make([]byte, 20)
	for j := range b {
		b[j] = byte(0x10 + i)
	}
	return sdk.ValAddress(b)
}
func orchAddr(i int) sdk.AccAddress {
	b := make([]byte, 20)
	for j := range b {
		b[j] = byte(0x50 + i)
	}
	return sdk.AccAddress(b)
}
func ethAddrOf(tag byte, i int) string {
	b := make([]byte, 20)
	for j := range b {
		b[j] = tag + byte(i)
	}
	return fmt.Sprintf("0x%x", b)
}

// ---------- operations ----------

type HubOp struct {
	Kind      int // 1 send 2 cancel 3 reqbatch 4 event 5 begin 6 end 7 env
	Sender    string
	Chain     string
	Recipient string
	Denom     string
	Amount    *big.Int
	Fee       *big.Int
	TxBytes   []byte
	Id        uint64
	Ev        *HubEvent
	Height    int64
	TimeMs    int64
	Tokens    []*types.TokenInfo
	Holders   map[string]*big.Int
	Prices    map[string]sdk.Dec
}

type HubEvent struct {
	Kind       int // 1 deposit(SendToHub) 2 transfer 3 batch executed 4 other
	Nonce      uint64
	Coin       string
	Amount     *big.Int
	Fee        *big.Int
	Sender     string
	Receiver   string // bech32 for deposit; hex for transfer
	RChain     string
	Height     uint64
	TxHash     string
	BatchNonce uint64
	FeePaid    *big.Int
	FeePayer   string
}

func txHashOf(b []byte) string { return fmt.Sprintf("%x", sha256.Sum256(b)) }

func (ev *HubEvent) toExternal() types.ExternalEvent {
	switch ev.Kind {
	case 1:
		return &types.SendToHubEvent{EventNonce: ev.Nonce, ExternalCoinId: ev.Coin, Amount: sdk.NewIntFromBigInt(ev.Amount),
			Sender: ev.Sender, CosmosReceiver: ev.Receiver, ExternalHeight: ev.Height, TxHash: ev.TxHash}
	case 2:
		return &types.TransferToChainEvent{EventNonce: ev.Nonce, ExternalCoinId: ev.Coin, Amount: sdk.NewIntFromBigInt(ev.Amount),
			Fee: sdk.NewIntFromBigInt(ev.Fee), Sender: ev.Sender, ReceiverChainId: ev.RChain, ExternalReceiver: ev.Receiver,
			ExternalHeight: ev.Height, TxHash: ev.TxHash}
	case 3:
		return &types.BatchExecutedEvent{EventNonce: ev.Nonce, ExternalCoinId: ev.Coin, BatchNonce: ev.BatchNonce,
			ExternalHeight: ev.Height, TxHash: ev.TxHash, FeePaid: sdk.NewIntFromBigInt(ev.FeePaid), FeePayer: ev.FeePayer}
	default:
		return &types.ContractCallExecutedEvent{EventNonce: ev.Nonce, InvalidationScope: []byte{1}, InvalidationNonce: 1, ExternalHeight: ev.Height}
	}
}

func hexReceiverToBech32(h string) string {
	// Handle: sdk.AccAddressFromHex(event.ExternalReceiver[2:])
	if len(h) < 2 {
		return ""
	}
	a, err := sdk.AccAddressFromHex(h[2:])
	if err != nil {
		return ""
	}
	return a.String()
}

func (ev *HubEvent) val() V {
	switch ev.Kind {
	case 1:
		return L(I(1), U(ev.Nonce), B(ev.Coin), Z(ev.Amount), B(ev.Sender), B(ev.Receiver), U(ev.Height), B(ev.TxHash))
	case 2:
		return L(I(2), U(ev.Nonce), B(ev.Coin), Z(ev.Amount), Z(ev.Fee), B(ev.Sender), B(ev.RChain), B(ev.Receiver), U(ev.Height), B(ev.TxHash), B(hexReceiverToBech32(ev.Receiver)))
	case 3:
		return L(I(3), U(ev.Nonce), B(ev.Coin), U(ev.BatchNonce), U(ev.Height), B(ev.TxHash), Z(ev.FeePaid), B(ev.FeePayer))
	default:
		return L(I(4), U(ev.Nonce), U(ev.Height))
	}
}

func tokenVal(t *types.TokenInfo) V {
	return L(U(t.Id), B(t.Denom), B(t.ChainId), B(t.ExternalTokenId), U(t.ExternalDecimals), Z(t.Commission.BigInt()))
}

// ---------- running on the implementation ----------

type HubRun struct {
	deliver    bool   // blocks run on a cache-wrapped multistore (as deliverState), under a watchdog
	blockWrite func()
	env      *Env
	chains   []string
	nextNonce map[string]uint64
	voter    sdk.AccAddress
}

// hubSigners: the Minter signer set as the staking input defines it (bonded validators in staking order that have a
// Minter key, power normalised to 2^32-1 with exact integer arithmetic). Computed here, not read from the keeper: it
// is an INPUT of the model, and must not follow a defect of the code under test.
func hubSigners(env *Env) V {
	type sg struct {
		addr string
		p    uint64
	}
	var l []sg
	total := new(big.Int)
	for _, v := range env.Staking.Vals {
		if !v.Bonded {
			continue
		}
		ext := env.K.GetValidatorExternalAddress(env.Ctx, "minter", v.Oper)
		if ext.Hex() == "0x0000000000000000000000000000000000000000" {
			continue
		}
		l = append(l, sg{ext.Hex(), uint64(v.Power)})
		total.Add(total, new(big.Int).SetUint64(uint64(v.Power)))
	}
	var items []V
	for _, x := range l {
		n := new(big.Int).Mul(new(big.Int).SetUint64(x.p), big.NewInt(math.MaxUint32))
		n.Div(n, total)
		items = append(items, L(B(x.addr), U(n.Uint64())))
	}
	return L(items...)
}

func (op *HubOp) val(env *Env) V {
	switch op.Kind {
	case 1:
		return L(I(1), B(op.Sender), B(op.Chain), B(op.Recipient), B(op.Denom), Z(op.Amount), Z(op.Fee), B(txHashOf(op.TxBytes)))
	case 2:
		return L(I(2), B(op.Sender), B(op.Chain), U(op.Id))
	case 3:
		return L(I(3), B(op.Chain), B(op.Denom))
	case 4:
		return L(I(4), B(op.Chain), op.Ev.val())
	case 5:
		return L(I(5), I(op.Height), I(op.TimeMs), L())
	case 6:
		return L(I(6))
	case 8:
		return L(I(8))
	case 9:
		return L(I(9))
	case 11:
		return L(I(11), B(op.Chain), B(op.Denom))
	case 10:
		return L(I(10))
	default:
		var toks, hs, ps []V
		for _, t := range op.Tokens {
			toks = append(toks, tokenVal(t))
		}
		hk := make([]string, 0)
		for k := range op.Holders {
			hk = append(hk, k)
		}
		sort.Strings(hk)
		for _, k := range hk {
			hs = append(hs, L(B(k), Z(op.Holders[k])))
		}
		pk := make([]string, 0)
		for k := range op.Prices {
			pk = append(pk, k)
		}
		sort.Strings(pk)
		for _, k := range pk {
			ps = append(ps, L(B(k), Z(op.Prices[k].BigInt())))
		}
		return L(I(7), L(toks...), hubSigners(env), L(hs...), L(ps...))
	}
}

func (r *HubRun) exec(op *HubOp) (int64, string) {
	env := r.env
	switch op.Kind {
	case 1:
		msg := &types.MsgSendToExternal{Sender: op.Sender, ExternalRecipient: op.Recipient,
			Amount: sdk.Coin{Denom: op.Denom, Amount: sdk.NewIntFromBigInt(op.Amount)},
			BridgeFee: sdk.Coin{Denom: op.Denom, Amount: sdk.NewIntFromBigInt(op.Fee)}, ChainId: op.Chain}
		return env.Tx(op.TxBytes, func(ctx sdk.Context) error {
			_, err := env.Msg.SendToExternal(sdk.WrapSDKContext(ctx), msg)
			return err
		})
	case 2:
		msg := &types.MsgCancelSendToExternal{Id: op.Id, Sender: op.Sender, ChainId: op.Chain}
		return env.Tx(nil, func(ctx sdk.Context) error {
			_, err := env.Msg.CancelSendToExternal(sdk.WrapSDKContext(ctx), msg)
			return err
		})
	case 3:
		msg := &types.MsgRequestBatchTx{Denom: op.Denom, Signer: op.Sender, ChainId: op.Chain}
		return env.Tx(nil, func(ctx sdk.Context) error {
			_, err := env.Msg.RequestBatchTx(sdk.WrapSDKContext(ctx), msg)
			return err
		})
	case 4:
		any, err := types.PackEvent(op.Ev.toExternal())
		if err != nil {
			panic(err)
		}
		msg := &types.MsgSubmitExternalEvent{Event: any, Signer: r.voter.String(), ChainId: op.Chain}
		code, m := env.Tx(nil, func(ctx sdk.Context) error {
			_, err := env.Msg.SubmitExternalEvent(sdk.WrapSDKContext(ctx), msg)
			return err
		})
		if code != 0 {
			panic("harness: vote of the quorum validator was rejected: " + m)
		}
		return 0, ""
	case 5:
		env.Ctx = env.Ctx.WithBlockHeight(op.Height).WithBlockTime(time.UnixMilli(op.TimeMs).UTC())
		if r.deliver {
			cms := env.MS.CacheMultiStore()
			env.Ctx = env.Ctx.WithMultiStore(cms)
			r.blockWrite = cms.Write
			return watchdog(func() error { mhub2.BeginBlocker(env.Ctx, env.K); return nil })
		}
		return outcome(func() error { mhub2.BeginBlocker(env.Ctx, env.K); return nil })
	case 6:
		if r.deliver {
			code, m := watchdog(func() error { mhub2.EndBlocker(env.Ctx, env.K); return nil })
			if code != 3 && r.blockWrite != nil {
				r.blockWrite()
				r.blockWrite = nil
				env.Ctx = env.Ctx.WithMultiStore(env.MS)
			}
			return code, m
		}
		return outcome(func() error { mhub2.EndBlocker(env.Ctx, env.K); return nil })
	case 11:
		// a transaction whose first message requests a batch and whose second message fails: everything it did is dropped
		msg := &types.MsgRequestBatchTx{Denom: op.Denom, Signer: op.Sender, ChainId: op.Chain}
		return env.Tx(nil, func(ctx sdk.Context) error {
			if _, err := env.Msg.RequestBatchTx(sdk.WrapSDKContext(ctx), msg); err != nil {
				return err
			}
			return fmt.Errorf("a later message of the transaction failed")
		})
	case 9:
		return env.Tx(nil, func(ctx sdk.Context) error {
			env.K.SetTokenInfos(ctx, &types.TokenInfos{TokenInfos: op.Tokens})
			_ = env.K.GetTokenInfos(ctx)
			return fmt.Errorf("proposal failed after writing the token list")
		})
	case 10:
		env.Wire()
		return 0, ""
	case 8:
		code, m := outcome(func() error { env.Restart(); return nil })
		if code != 0 && os.Getenv("VERIF_DEBUG") != "" {
			fmt.Fprintln(os.Stderr, "restart:", m)
		}
		return code, m
	default:
		env.K.SetTokenInfos(env.Ctx, &types.TokenInfos{TokenInfos: op.Tokens})
		env.Oracle.Holders = map[string]sdk.Int{}
		for k, v := range op.Holders {
			env.Oracle.Holders[k] = sdk.NewIntFromBigInt(v)
		}
		env.Oracle.Prices = op.Prices
		return 0, ""
	}
}

// ---------- observation ----------

func steVal(s *types.SendToExternal) V {
	return L(U(s.Id), B(s.Sender), B(s.ExternalRecipient), B(s.ChainId), U(s.Token.TokenId), B(s.Token.ExternalTokenId),
		Z(s.Token.Amount.BigInt()), Z(s.Fee.Amount.BigInt()), Z(s.ValCommission.Amount.BigInt()), B(s.TxHash), U(s.CreatedAt),
		B(s.RefundAddress), B(s.RefundChainId))
}

func rawU64(env *Env, key []byte) uint64 {
	bz := env.Ctx.KVStore(env.HubKey).Get(key)
	if bz == nil {
		return 0
	}
	return binary.BigEndian.Uint64(bz)
}

func observeHub(env *Env, chains []string) V {
	ctx := env.Ctx
	modAddr := authtypes.NewModuleAddress(types.ModuleName).String()
	var sup, bal, pool, batches, ctr, status, feerec []V
	env.Bank.IterateTotalSupply(ctx, func(c sdk.Coin) bool {
		if !c.Amount.IsZero() {
			sup = append(sup, L(B(c.Denom), Z(c.Amount.BigInt())))
		}
		return false
	})
	env.Bank.IterateAllBalances(ctx, func(a sdk.AccAddress, c sdk.Coin) bool {
		if !c.Amount.IsZero() {
			name := a.String()
			if name == modAddr {
				name = types.ModuleName
			}
			bal = append(bal, L(B(name), B(c.Denom), Z(c.Amount.BigInt())))
		}
		return false
	})
	for _, ch := range chains {
		cid := types.ChainID(ch)
		env.K.IterateUnbatchedSendToExternals(ctx, cid, func(s *types.SendToExternal) bool {
			pool = append(pool, steVal(s))
			return false
		})
		env.K.IterateOutgoingTxsByType(ctx, cid, types.BatchTxPrefixByte, func(_ []byte, otx types.OutgoingTx) bool {
			b := otx.(*types.BatchTx)
			var txs []V
			for _, t := range b.Transactions {
				txs = append(txs, steVal(t))
			}
			batches = append(batches, L(B(ch), B(b.ExternalTokenId), U(b.BatchNonce), U(b.Timeout), U(b.Height), U(b.Sequence), L(txs...)))
			return false
		})
		add := func(tag int64, v uint64) {
			if v != 0 {
				ctr = append(ctr, L(I(tag), B(ch), U(v)))
			}
		}
		add(1, rawU64(env, append([]byte{types.LastSendToExternalIDKey}, cid.Bytes()...)))
		add(2, rawU64(env, append([]byte{types.LastOutgoingBatchNonceKey}, cid.Bytes()...)))
		add(3, rawU64(env, append([]byte{types.OutgoingSequence}, cid.Bytes()...)))
		h := env.K.GetLastObservedExternalBlockHeight(ctx, cid)
		add(4, h.CosmosHeight)
		add(5, h.ExternalHeight)
		add(6, env.K.GetLatestSignerSetTxNonce(ctx, cid))
	}
	cdc := keeper.MakeTestMarshaler()
	it := prefix.NewStore(ctx.KVStore(env.HubKey), []byte{types.TxStatusKey}).Iterator(nil, nil)
	for ; it.Valid(); it.Next() {
		var st types.TxStatus
		cdc.MustUnmarshal(it.Value(), &st)
		status = append(status, L(B(string(it.Key())), I(int64(st.Status)), B(st.OutTxHash)))
	}
	it.Close()
	it = prefix.NewStore(ctx.KVStore(env.HubKey), []byte{types.TxFeeRecordKey}).Iterator(nil, nil)
	for ; it.Valid(); it.Next() {
		var fr types.TxFeeRecord
		cdc.MustUnmarshal(it.Value(), &fr)
		feerec = append(feerec, L(B(string(it.Key())), Z(fr.ValCommission.BigInt()), Z(fr.ExternalFee.BigInt())))
	}
	it.Close()
	var toks []V
	if ti := env.K.GetTokenInfos(ctx); ti != nil {
		for _, t := range ti.TokenInfos {
			toks = append(toks, tokenVal(t))
		}
	}
	return L(Set(sup...), Set(bal...), Set(pool...), Set(batches...), Set(ctr...), Set(status...), Set(feerec...), Set(toks...))
}

var _ = banktypes.ModuleName
var _ = strings.ToLower

// watchdog runs block processing in its own goroutine: code 2 = panic, code 3 = did not return
// within the limit (deadlock); the caller abandons the history after a 3.
func watchdog(f func() error) (int64, string) {
	type res struct {
		code int64
		msg  string
	}
	done := make(chan res, 1)
	go func() {
		c, m := outcome(f)
		done <- res{c, m}
	}()
	limit := 8 * time.Second
	select {
	case r := <-done:
		if r.code != 0 && os.Getenv("VERIF_DEBUG") != "" {
			fmt.Fprintln(os.Stderr, "block processing:", r.msg)
		}
		return r.code, r.msg
	case <-time.After(limit):
		return 3, "block processing did not return"
	}
}
