package main

// Wiring of the real keepers (mhub2, oracle, x/bank, x/auth, x/params) on real stores, with
// configurable staking and oracle inputs.  A stripped-down keeper.CreateTestEnv.

import (
	"crypto/sha256"
	"encoding/binary"
	"encoding/hex"
	"fmt"
	"os"
	"sort"
	"time"

	"github.com/cosmos/cosmos-sdk/store"
	sdk "github.com/cosmos/cosmos-sdk/types"
	authkeeper "github.com/cosmos/cosmos-sdk/x/auth/keeper"
	authtypes "github.com/cosmos/cosmos-sdk/x/auth/types"
	bankkeeper "github.com/cosmos/cosmos-sdk/x/bank/keeper"
	banktypes "github.com/cosmos/cosmos-sdk/x/bank/types"
	paramskeeper "github.com/cosmos/cosmos-sdk/x/params/keeper"
	paramstypes "github.com/cosmos/cosmos-sdk/x/params/types"
	stakingtypes "github.com/cosmos/cosmos-sdk/x/staking/types"
	"github.com/tendermint/tendermint/libs/log"
	tmproto "github.com/tendermint/tendermint/proto/tendermint/types"
	dbm "github.com/tendermint/tm-db"

	codectypes "github.com/cosmos/cosmos-sdk/codec/types"
	"github.com/cosmos/cosmos-sdk/crypto/keys/ed25519"

	"github.com/MinterTeam/mhub2/module/x/mhub2/keeper"
	"github.com/MinterTeam/mhub2/module/x/mhub2/types"
	okeeper "github.com/MinterTeam/mhub2/module/x/oracle/keeper"
	otypes "github.com/MinterTeam/mhub2/module/x/oracle/types"
)

// ---------- staking input ----------

type ValIn struct {
	Oper   sdk.ValAddress
	Power  int64
	Bonded bool
}

type StakingIn struct {
	Vals []ValIn // in "by power" order as given
	pk   map[string]*codectypes.Any
}

func (s *StakingIn) val(v ValIn) stakingtypes.Validator {
	if s.pk == nil {
		s.pk = map[string]*codectypes.Any{}
	}
	a, ok := s.pk[v.Oper.String()]
	if !ok {
		var err error
		a, err = codectypes.NewAnyWithValue(ed25519.GenPrivKeyFromSecret(v.Oper.Bytes()).PubKey())
		if err != nil {
			panic(err)
		}
		s.pk[v.Oper.String()] = a
	}
	st := stakingtypes.Unbonding
	if v.Bonded {
		st = stakingtypes.Bonded
	}
	return stakingtypes.Validator{ConsensusPubkey: a, OperatorAddress: v.Oper.String(), Status: st}
}

func (s *StakingIn) GetBondedValidatorsByPower(ctx sdk.Context) []stakingtypes.Validator {
	var out []stakingtypes.Validator
	for _, v := range s.Vals {
		if v.Bonded {
			out = append(out, s.val(v))
		}
	}
	return out
}
func (s *StakingIn) GetLastValidatorPower(ctx sdk.Context, operator sdk.ValAddress) int64 {
	for _, v := range s.Vals {
		if v.Oper.Equals(operator) && v.Bonded {
			return v.Power
		}
	}
	return 0
}
func (s *StakingIn) GetLastTotalPower(ctx sdk.Context) sdk.Int {
	t := int64(0)
	for _, v := range s.Vals {
		if v.Bonded {
			t += v.Power
		}
	}
	return sdk.NewInt(t)
}
func (s *StakingIn) IterateValidators(ctx sdk.Context, cb func(int64, stakingtypes.ValidatorI) bool) {
	for i, v := range s.Vals {
		if cb(int64(i), s.val(v)) {
			break
		}
	}
}
func (s *StakingIn) IterateBondedValidatorsByPower(ctx sdk.Context, cb func(int64, stakingtypes.ValidatorI) bool) {
	for i, v := range s.GetBondedValidatorsByPower(ctx) {
		if cb(int64(i), v) {
			break
		}
	}
}
func (s *StakingIn) IterateLastValidators(ctx sdk.Context, cb func(int64, stakingtypes.ValidatorI) bool) {
	s.IterateBondedValidatorsByPower(ctx, cb)
}
func (s *StakingIn) Validator(ctx sdk.Context, addr sdk.ValAddress) stakingtypes.ValidatorI {
	for _, v := range s.Vals {
		if v.Oper.Equals(addr) {
			return s.val(v)
		}
	}
	return nil
}
func (s *StakingIn) ValidatorByConsAddr(ctx sdk.Context, addr sdk.ConsAddress) stakingtypes.ValidatorI {
	return nil
}
func (s *StakingIn) GetParams(ctx sdk.Context) stakingtypes.Params {
	return stakingtypes.DefaultParams()
}
func (s *StakingIn) GetValidator(ctx sdk.Context, addr sdk.ValAddress) (stakingtypes.Validator, bool) {
	for _, v := range s.Vals {
		if v.Oper.Equals(addr) {
			return s.val(v), true
		}
	}
	return stakingtypes.Validator{}, false
}
func (s *StakingIn) ValidatorQueueIterator(ctx sdk.Context, endTime time.Time, endHeight int64) sdk.Iterator {
	panic("unexpected call")
}
func (s *StakingIn) Slash(sdk.Context, sdk.ConsAddress, int64, int64, sdk.Dec) {}
func (s *StakingIn) Jail(sdk.Context, sdk.ConsAddress)                         {}

// ---------- oracle input (prices, holders) ----------

type OracleIn struct {
	Prices  map[string]sdk.Dec
	Holders map[string]sdk.Int // lower-cased address without 0x
}

func (o *OracleIn) MustGetTokenPrice(ctx sdk.Context, denom string) sdk.Dec {
	p, err := o.GetTokenPrice(ctx, denom)
	if err != nil {
		panic(err)
	}
	return p
}
func (o *OracleIn) GetTokenPrice(ctx sdk.Context, denom string) (sdk.Dec, error) {
	if p, ok := o.Prices[denom]; ok {
		return p, nil
	}
	return sdk.Dec{}, fmt.Errorf("key not found")
}
func (o *OracleIn) GetHolderValue(ctx sdk.Context, address string) sdk.Int {
	// x/oracle GetHolderValue compares lower-cased addresses
	if v, ok := o.Holders[lower(address)]; ok {
		return v
	}
	return sdk.NewInt(0)
}

func lower(s string) string {
	b := []byte(s)
	for i, c := range b {
		if c >= 'A' && c <= 'Z' {
			b[i] = c + 32
		}
	}
	return string(b)
}

// ---------- environment ----------

type Env struct {
	Ctx           sdk.Context
	MS            store.CommitMultiStore
	K             keeper.Keeper
	Msg           types.MsgServer
	Bank          bankkeeper.BaseKeeper
	Acc           authkeeper.AccountKeeper
	Staking       *StakingIn
	Oracle        *OracleIn
	HubKey        *sdk.KVStoreKey
	BankKey       *sdk.KVStoreKey
	OrcKey        *sdk.KVStoreKey
	AccKey        *sdk.KVStoreKey
	ParamsKey     *sdk.KVStoreKey
	TParamsKey    *sdk.TransientStoreKey
	OK            okeeper.Keeper
	OMsg          otypes.MsgServer
	useRealOracle bool
}

type EnvOpts struct {
	Params     types.Params
	Tokens     []*types.TokenInfo
	States     []*types.ExternalState
	RealOracle bool // wire the real x/oracle keeper as the mhub2 oracle keeper
}

func DefaultTestParams(chains []string) types.Params {
	p := keeper.TestingMhub2Params
	p.Chains = chains
	return p
}

func NewEnv(o EnvOpts) *Env {
	e := &Env{useRealOracle: o.RealOracle}
	e.HubKey = sdk.NewKVStoreKey(types.StoreKey)
	e.AccKey = sdk.NewKVStoreKey(authtypes.StoreKey)
	e.BankKey = sdk.NewKVStoreKey(banktypes.StoreKey)
	e.ParamsKey = sdk.NewKVStoreKey(paramstypes.StoreKey)
	e.TParamsKey = sdk.NewTransientStoreKey(paramstypes.TStoreKey)
	e.OrcKey = sdk.NewKVStoreKey(otypes.StoreKey)

	db := dbm.NewMemDB()
	ms := store.NewCommitMultiStore(db)
	ms.MountStoreWithDB(e.HubKey, sdk.StoreTypeIAVL, db)
	ms.MountStoreWithDB(e.AccKey, sdk.StoreTypeIAVL, db)
	ms.MountStoreWithDB(e.ParamsKey, sdk.StoreTypeIAVL, db)
	ms.MountStoreWithDB(e.BankKey, sdk.StoreTypeIAVL, db)
	ms.MountStoreWithDB(e.TParamsKey, sdk.StoreTypeTransient, db)
	ms.MountStoreWithDB(e.OrcKey, sdk.StoreTypeIAVL, db)
	if err := ms.LoadLatestVersion(); err != nil {
		panic(err)
	}
	e.MS = ms
	e.Ctx = sdk.NewContext(ms, tmproto.Header{Height: 0, Time: time.Unix(1600000000, 0).UTC()}, false, harnessLogger())
	e.Staking = &StakingIn{}
	e.Oracle = &OracleIn{Prices: map[string]sdk.Dec{}, Holders: map[string]sdk.Int{}}
	e.Wire()

	ctx := e.Ctx
	e.Bank.SetParams(ctx, banktypes.Params{DefaultSendEnabled: true})
	names := make([]string, 0, len(maccPerms))
	for name := range maccPerms {
		names = append(names, name)
	}
	sort.Strings(names)
	for _, name := range names {
		e.Acc.SetModuleAccount(ctx, authtypes.NewEmptyModuleAccount(name, maccPerms[name]...))
	}
	params := o.Params
	// the genesis state is the module's to keep: hand it copies, so that nothing InitGenesis does to it reaches
	// the objects the generator goes on using
	var toks []*types.TokenInfo
	for _, t := range o.Tokens {
		c := *t
		toks = append(toks, &c)
	}
	keeper.InitGenesis(ctx, e.K, types.GenesisState{Params: &params, TokenInfos: &types.TokenInfos{TokenInfos: toks}, ExternalStates: o.States})
	op := otypes.DefaultParams()
	okeeper.InitGenesis(ctx, e.OK, otypes.GenesisState{Params: op})
	return e
}

var maccPerms = map[string][]string{
	authtypes.FeeCollectorName: nil,
	types.ModuleName:           {authtypes.Minter, authtypes.Burner},
}

// Wire builds every keeper and message server over the environment's stores.  Calling it again is
// what a process restart does to the modules: whatever they keep outside the stores is gone.
func (e *Env) Wire() {
	cdc := keeper.MakeTestCodec()
	marshaler := keeper.MakeTestMarshaler()
	pk := paramskeeper.NewKeeper(marshaler, cdc, e.ParamsKey, e.TParamsKey)
	pk.Subspace(authtypes.ModuleName)
	pk.Subspace(banktypes.ModuleName)
	pk.Subspace(types.DefaultParamspace)
	pk.Subspace(otypes.ModuleName)
	sub := func(name string) paramstypes.Subspace { s, _ := pk.GetSubspace(name); return s }

	ak := authkeeper.NewAccountKeeper(marshaler, e.AccKey, sub(authtypes.ModuleName), authtypes.ProtoBaseAccount, maccPerms)
	blocked := map[string]bool{}
	for acc := range maccPerms {
		blocked[authtypes.NewModuleAddress(acc).String()] = true
	}
	bk := bankkeeper.NewBaseKeeper(marshaler, e.BankKey, ak, sub(banktypes.ModuleName), blocked)

	ok := okeeper.NewKeeper(marshaler, e.OrcKey, sub(otypes.ModuleName), e.Staking)
	var orcIface types.OracleKeeper = e.Oracle
	if e.useRealOracle {
		orcIface = ok
	}
	k := keeper.NewKeeper(marshaler, e.HubKey, sub(types.DefaultParamspace), ak, bk, nil, orcIface, sdk.DefaultPowerReduction)
	k = k.SetStakingKeeper(e.Staking)
	ok = ok.SetMhub2Keeper(k)
	// the oracle's attestation handler holds a copy of the keeper made before SetMhub2Keeper
	// (as in app.go); it only uses the store key, so that is harmless.
	e.K, e.Msg, e.Bank, e.Acc, e.OK, e.OMsg = k, keeper.NewMsgServerImpl(k), bk, ak, ok, okeeper.NewMsgServerImpl(ok)
}

// Restart exports the genesis of the bridge, oracle, bank and auth modules (through JSON, as a real
// export does), initialises a fresh set of stores from it and continues there.  Staking and the
// price/holder inputs of the harness are carried over; the block header stays.
func (e *Env) Restart() {
	m := keeper.MakeTestMarshaler()
	gs := keeper.ExportGenesis(e.Ctx, e.K)
	var gs2 types.GenesisState
	m.MustUnmarshalJSON(m.MustMarshalJSON(&gs), &gs2)
	ogs := okeeper.ExportGenesis(e.Ctx, e.OK)
	var ogs2 otypes.GenesisState
	m.MustUnmarshalJSON(m.MustMarshalJSON(&ogs), &ogs2)
	bgs := e.Bank.ExportGenesis(e.Ctx)
	var accounts []authtypes.AccountI
	e.Acc.IterateAccounts(e.Ctx, func(a authtypes.AccountI) bool { accounts = append(accounts, a); return false })

	ne := NewEnv(EnvOpts{Params: *gs2.Params, Tokens: gs2.TokenInfos.TokenInfos, States: gs2.ExternalStates, RealOracle: e.useRealOracle})
	okeeper.InitGenesis(ne.Ctx, ne.OK, ogs2)
	for _, a := range accounts {
		ne.Acc.SetAccount(ne.Ctx, a)
	}
	ne.Bank.InitGenesis(ne.Ctx, bgs)
	*ne.Staking = *e.Staking
	*ne.Oracle = *e.Oracle
	ne.Ctx = ne.Ctx.WithBlockHeader(e.Ctx.BlockHeader())
	*e = *ne
}

// Fund mints coins from nothing into an account (test setup only).
func (e *Env) Fund(addr sdk.AccAddress, coins sdk.Coins) {
	if err := e.Bank.MintCoins(e.Ctx, types.ModuleName, coins); err != nil {
		panic(err)
	}
	if err := e.Bank.SendCoinsFromModuleToAccount(e.Ctx, types.ModuleName, addr, coins); err != nil {
		panic(err)
	}
}

// Outcome codes shared with the model: 0 ok, 1 error, 2 panic.
func outcome(f func() error) (code int64, msg string) {
	defer func() {
		if r := recover(); r != nil {
			code, msg = 2, fmt.Sprint(r)
		}
	}()
	if err := f(); err != nil {
		return 1, err.Error()
	}
	return 0, ""
}

// DeliverTx-like execution: run f on a cache branch of the context, write it only on success.
func (e *Env) Tx(txBytes []byte, f func(ctx sdk.Context) error) (int64, string) {
	cctx, write := e.Ctx.WithTxBytes(txBytes).CacheContext()
	code, msg := outcome(func() error { return f(cctx) })
	if code == 0 {
		write()
		// as baseapp does for a successful tx: its events become part of the block's result
		e.Ctx.EventManager().EmitEvents(cctx.EventManager().Events())
	}
	return code, msg
}

// StateHash: SHA-256 over every key/value pair of the bridge, oracle and bank stores and over the
// ABCI events emitted since the last call (determinism suite).
func (e *Env) StateHash() string {
	h := sha256.New()
	for _, key := range []*sdk.KVStoreKey{e.HubKey, e.OrcKey, e.BankKey} {
		it := e.Ctx.KVStore(key).Iterator(nil, nil)
		for ; it.Valid(); it.Next() {
			binary.Write(h, binary.BigEndian, uint32(len(it.Key())))
			h.Write(it.Key())
			binary.Write(h, binary.BigEndian, uint32(len(it.Value())))
			h.Write(it.Value())
		}
		it.Close()
		h.Write([]byte{0xff})
	}
	for _, ev := range e.Ctx.EventManager().ABCIEvents() {
		h.Write([]byte(ev.Type))
		for _, a := range ev.Attributes {
			h.Write(a.Key)
			h.Write([]byte{0})
			h.Write(a.Value)
			h.Write([]byte{1})
		}
	}
	e.Ctx = e.Ctx.WithEventManager(sdk.NewEventManager())
	return hex.EncodeToString(h.Sum(nil)[:12])
}

// ---------- deterministic PRNG (splitmix64) ----------

type Rng struct{ s uint64 }

func (r *Rng) Next() uint64 {
	r.s += 0x9e3779b97f4a7c15
	z := r.s
	z = (z ^ (z >> 30)) * 0xbf58476d1ce4e5b9
	z = (z ^ (z >> 27)) * 0x94d049bb133111eb
	return z ^ (z >> 31)
}
func (r *Rng) Intn(n int) int {
	if n <= 0 {
		return 0
	}
	return int(r.Next() % uint64(n))
}
func (r *Rng) Chance(num, den int) bool { return r.Intn(den) < num }
func (r *Rng) Fork(tag uint64) *Rng     { return &Rng{s: r.Next() ^ (tag * 0x2545F4914F6CDD1D)} }

func harnessLogger() log.Logger {
	if os.Getenv("VERIF_DEBUG") != "" {
		return log.NewTMLogger(os.Stderr)
	}
	return log.NewNopLogger()
}
